------------------------------ MODULE Cardinality ------------------------------
(* C06, exact part.  Two small models, selected by the SPECIFICATION of the config: *)
(*                                                                                  *)
(* SpecMono - the SetSketch cardinality estimate with b = 2 is the exact rational   *)
(*   Est(K) = c / Sum_p 2^-K[p]   (c > 0 any constant).  A sketch call or a merge    *)
(*   replaces the registers by a position-wise maximum with some table / register   *)
(*   vector t (SetSketch.tla proves that: Refines).  Over ALL register vectors and   *)
(*   ALL t TLC checks: the estimate never decreases, it increases strictly iff a     *)
(*   register changed (so a repeated item or a merged-in subset leaves it equal),    *)
(*   and the estimate of a union is at least the estimate of either part.            *)
(*                                                                                  *)
(* SpecRed - the parallel reduction.  The sum of N positive terms is evaluated in a  *)
(*   toy binary floating-point format with a P-bit significand (round to nearest,    *)
(*   ties to even): `work` is the bag of partial sums, Combine adds ANY two of them  *)
(*   and rounds, so every order and every association of the reduction tree is       *)
(*   explored (rayon's order-preserving splits and the sequential fold are special   *)
(*   cases).  Two reductions of the same leaves are run one after the other and      *)
(*   compared.  Checked for all bags of representable leaves in 1..LMAX:             *)
(*     ErrBound   |r - exact| <= (N-1) * 1/2 ulp(r)                                 *)
(*     Higham     |r - exact| <= g * exact, g = (N-1)u/(1-(N-1)u), u = 2^-P          *)
(*                (the standard bound (m-1) u Sum|terms| used for the code)          *)
(*     PairBound  two results differ by at most (N-1) ulp of the larger one, i.e.    *)
(*                by at most 2(N-1) representable numbers                            *)
(*     FoldMono   the sequential fold (any order) does not increase when a term is   *)
(*                lowered: the floating-point estimate of the sketcher is monotone   *)
(* Dev selects a deviation for anti-vacuity ("none" for the faithful model);         *)
(* KBound = N-1 is the claim, KBound = 0 (addition associative) must be refuted,     *)
(* and KBound = 1 is refuted for N = 4 (TLC: the distance attained is 1 ulp for     *)
(* N = 3, 2 ulp for N = 4: the bound has to grow with the number of terms).          *)
EXTENDS Integers, Sequences, FiniteSets, TLC

CONSTANTS M, Q,          \* SpecMono: registers 1..M with values 0..Q+1
          N, P, LMAX,    \* SpecRed: N leaves, P-bit significand, leaves in 1..LMAX
          KBound,        \* SpecRed: claimed bound on the distance of two results, in ulps of the larger (N-1)
          Dev            \* "none" | "mergemin" | "chop"

VARIABLES kv, last,                   \* SpecMono
          leaves, work, first, phase  \* SpecRed
vars == <<kv, last, leaves, work, first, phase>>

(* ------------------------------------------------------------------ SpecMono *)
Pos  == 1..M
Vecs == [Pos -> 0..(Q+1)]
Zero == [p \in Pos |-> 0]
Join(a, t) == [p \in Pos |-> IF Dev = "mergemin" /\ p = 1
                               THEN (IF a[p] < t[p] THEN a[p] ELSE t[p])
                               ELSE (IF a[p] > t[p] THEN a[p] ELSE t[p])]
RECURSIVE SumPow(_, _)
SumPow(v, p) == IF p = 0 THEN 0 ELSE 2^(Q + 1 - v[p]) + SumPow(v, p - 1)   \* = 2^(Q+1) * Sum 2^-K
(* c = CN/CD; for the code c = m (1 - 1/b) / (a ln b), here any positive rational *)
CN == M
CD == 2
Est(v) == <<CN * 2^(Q+1), CD * SumPow(v, M)>>          \* numerator, denominator (> 0)
Leq(x, y) == x[1] * y[2] <= y[1] * x[2]
Lt(x, y)  == x[1] * y[2] <  y[1] * x[2]

InitMono == /\ kv = Zero /\ last = Zero
            /\ leaves = <<>> /\ work = <<>> /\ first = 0 /\ phase = 0
StepMono(t) == /\ kv' = Join(kv, t) /\ last' = t
               /\ UNCHANGED <<leaves, work, first, phase>>
NextMono == \E t \in Vecs : StepMono(t)
SpecMono == InitMono /\ [][NextMono]_vars

NeverDecreases    == [][Leq(Est(kv), Est(kv'))]_vars
StrictIffChanged  == [][IF kv' = kv THEN Est(kv') = Est(kv) ELSE Lt(Est(kv), Est(kv'))]_vars
UnionAtLeastParts == [][Leq(Est(last'), Est(kv'))]_vars
AllVectorsReached == kv \in Vecs

(* ------------------------------------------------------------------- SpecRed *)
RECURSIVE Expo(_)
Expo(x) == IF x < 2^P THEN 0 ELSE 1 + Expo(x \div 2)
Ulp(x)  == 2^Expo(x)
Representable(x) == x % Ulp(x) = 0
Round(x) == LET u  == Ulp(x)
                lo == (x \div u) * u
                r  == x - lo
            IN IF Dev = "chop" THEN lo
               ELSE IF 2 * r < u THEN lo
               ELSE IF 2 * r > u THEN lo + u
               ELSE IF (lo \div u) % 2 = 0 THEN lo ELSE lo + u
(* position of a representable number in the list of representable numbers *)
Idx(x) == IF x < 2^P THEN x ELSE 2^P + (Expo(x) - 1) * 2^(P-1) + ((x \div Ulp(x)) - 2^(P-1))
Abs(x) == IF x < 0 THEN -x ELSE x
Max2(a, b) == IF a > b THEN a ELSE b

Reps == {x \in 1..LMAX : Representable(x)}
Bags == {s \in [1..N -> Reps] : \A i \in 1..(N-1) : s[i] <= s[i+1]}
RECURSIVE SumSeq(_)
SumSeq(s) == IF s = <<>> THEN 0 ELSE Head(s) + SumSeq(Tail(s))
Exact == SumSeq(leaves)

RECURSIVE Insert(_, _)
Insert(s, v) == IF s = <<>> THEN <<v>>
                ELSE IF v <= Head(s) THEN <<v>> \o s ELSE <<Head(s)>> \o Insert(Tail(s), v)
Without(s, i, j) == SubSeq(s, 1, i - 1) \o SubSeq(s, i + 1, j - 1) \o SubSeq(s, j + 1, Len(s))    \* i < j

InitRed == /\ leaves \in Bags /\ work = leaves /\ first = 0 /\ phase = 1
           /\ kv = <<>> /\ last = <<>>
Combine == /\ Len(work) >= 2
           /\ \E i, j \in 1..Len(work) : i < j /\ work' = Insert(Without(work, i, j), Round(work[i] + work[j]))
           /\ UNCHANGED <<leaves, first, phase, kv, last>>
Again   == /\ phase = 1 /\ Len(work) = 1
           /\ first' = work[1] /\ work' = leaves /\ phase' = 2
           /\ UNCHANGED <<leaves, kv, last>>
NextRed == Combine \/ Again
SpecRed == InitRed /\ [][NextRed]_vars

KB == KBound       \* faithful: N - 1;  0 would claim that rounded addition is associative
Done == Len(work) = 1
ErrBound  == Done => 2 * Abs(work[1] - Exact) <= (N - 1) * Ulp(work[1])
Higham    == Done => Abs(work[1] - Exact) * (2^P - (N - 1)) <= (N - 1) * Exact
PairBound == (Done /\ phase = 2) =>
               /\ Abs(work[1] - first) <= KB * Ulp(Max2(work[1], first))
               /\ Abs(Idx(work[1]) - Idx(first)) <= 2 * KB
AllRepresentable == \A k \in 1..Len(work) : Representable(work[k])

(* sequential fold from 0 in the order given by a permutation *)
Perms == {f \in [1..N -> 1..N] : \A i, j \in 1..N : i # j => f[i] # f[j]}
RECURSIVE Fold(_, _, _, _)
Fold(s, f, k, acc) == IF k > N THEN acc ELSE Fold(s, f, k + 1, Round(acc + s[f[k]]))
(* lowering one term to the next smaller representable number (hence, by transitivity, to any smaller one) *)
Below(x) == {v \in Reps : v < x}
Pred(x) == CHOOSE v \in Below(x) : \A w \in Below(x) : w <= v
FoldMono == (phase = 1 /\ Len(work) = N) =>
              \A f \in Perms : \A p \in 1..N :
                 Below(leaves[p]) # {} =>
                    Fold([leaves EXCEPT ![p] = Pred(leaves[p])], f, 1, 0) <= Fold(leaves, f, 1, 0)
================================================================================
