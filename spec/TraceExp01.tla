------------------------------ MODULE TraceExp01 ------------------------------
(* Trace validation for C16 (direction implementation -> specification).          *)
(* The harness runs the real ExpRestricted01::sample with a scripted generator on  *)
(* every tape of the TLC grid (first draw u, abscissa x, third draw y: cell        *)
(* mid-points, u = NU is the top of the generator range) and logs, per call,       *)
(*   nd  = draws consumed (4 = more than three: the pass was rejected),            *)
(*   out = cell of the returned value (-1 if rejected, -2 if outside [0,1)),       *)
(*   cut = the mid-point lies within 1e-9 of a decision boundary (flag computed    *)
(*         in high precision by the driver; the observation itself is untouched).  *)
(*   seq = running number of the call (a trace with a removed event is rejected).   *)
(* Every event must be the value of the transition function `Outcome` of           *)
(* Exp01.tla (same tables, EXP01_TABLES).  Level = "full": draws and output cell;  *)
(* Level = "law": acceptance and output cell only (the number of draws is branch   *)
(* structure, not law); on cut cells only the range is demanded.                   *)
EXTENDS Exp01

CONSTANT Level

Rec == ndJsonDeserialize(IOEnv.TRACE)

VARIABLE l
tvars == <<l, pc, lam, u1, cx, cy, nd, out>>

TraceInit == /\ l = 2
             /\ pc = "first" /\ lam = 0 /\ u1 = -1 /\ cx = -1 /\ cy = -1 /\ nd = 0 /\ out = -1

Matches(r) ==
  LET o == Outcome(r.lam, r.u, r.x, r.y) IN
  /\ r.outcome = "ok"
  /\ r.seq = l - 1                                            \* no event of the grid run is missing
  /\ r.lam \in 1..L /\ r.u \in 0..NU /\ r.x \in 0..(N-1) /\ r.y \in 0..(H-1)
  /\ (r.nd <= 3) => r.out \in 0..(N-1)                       \* range, also on cut cells
  /\ (r.nd > 3) => r.out = -1
  /\ ~r.cut =>
       /\ r.out = o.out                                       \* acceptance and output cell
       /\ (Level = "full") => r.nd = o.nd                     \* branch taken

(* the state after an event is the `done` (or rejected) state of the Exp01 machine for that tape *)
Sample == /\ l <= Len(Rec) /\ Rec[l].op = "sample" /\ l' = l + 1
          /\ LET r == Rec[l] IN
               /\ Matches(r)
               /\ lam' = r.lam /\ u1' = r.u /\ cx' = r.x /\ cy' = r.y /\ nd' = r.nd /\ out' = r.out
               /\ pc' = IF r.nd <= 3 THEN "done" ELSE "drawX"

TraceNext == Sample
TraceSpec == TraceInit /\ [][TraceNext]_tvars

TraceAccepted ==
  LET d == TLCGet("stats").diameter IN
  IF d = Len(Rec) THEN TRUE
  ELSE PrintT(<<"TRACE-REJECT", d, Len(Rec)>>) /\ FALSE
================================================================================
