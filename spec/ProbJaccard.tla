------------------------------ MODULE ProbJaccard ------------------------------
(* The quantity ProbMinHash estimates (C01), as an exact rational:                  *)
(*   J_P(a, b) = Sum_{i : a_i > 0 /\ b_i > 0}  1 / Sum_j max(a_j / a_i, b_j / b_i)   *)
(*             = Sum_i  a_i b_i / Sum_j max(a_j b_i, b_j a_i)                        *)
(* TLC evaluates it for every pair of weight vectors over 0..W of length N and       *)
(* prints <<num, den>>; the harness/driver's floating-point oracle is cross-checked  *)
(* against these values before it is used for large weight vectors.  Sanity          *)
(* theorems checked on the way: 0 <= J_P <= 1, J_P(a,a) = 1, symmetry, invariance    *)
(* under scaling of either argument, J_P = 0 iff the supports are disjoint.          *)
EXTENDS Integers, Sequences, FiniteSets, TLC, Json

CONSTANTS N, W

Idx  == 1..N
Vecs == {v \in [Idx -> 0..W] : \E i \in Idx : v[i] > 0}
Max2(x, y) == IF x > y THEN x ELSE y

Common(a, b) == {i \in Idx : a[i] > 0 /\ b[i] > 0}
RECURSIVE SumMax(_, _, _, _)
SumMax(a, b, i, j) == IF j = 0 THEN 0 ELSE Max2(a[j] * b[i], b[j] * a[i]) + SumMax(a, b, i, j - 1)
Den(a, b, i) == SumMax(a, b, i, N)
Num(a, b, i) == a[i] * b[i]

RECURSIVE Gcd(_, _)
Gcd(x, y) == IF y = 0 THEN x ELSE Gcd(y, x % y)

(* sum of the fractions Num/Den over the common support, kept reduced *)
RECURSIVE SumFrac(_, _, _, _)
SumFrac(a, b, S, acc) ==
  IF S = {} THEN acc
  ELSE LET i == CHOOSE i \in S : TRUE
           n == acc[1] * Den(a, b, i) + Num(a, b, i) * acc[2]
           d == acc[2] * Den(a, b, i)
           g == Gcd(n, d)
       IN SumFrac(a, b, S \ {i}, <<n \div g, d \div g>>)
JP(a, b) == SumFrac(a, b, Common(a, b), <<0, 1>>)

Scale(a, k) == [i \in Idx |-> k * a[i]]

ASSUME \A a \in Vecs, b \in Vecs :
   LET j == JP(a, b) IN
   /\ 0 <= j[1] /\ j[1] <= j[2]
   /\ j = JP(b, a)
   /\ (j[1] = 0) = (Common(a, b) = {})
   /\ JP(a, a) = <<1, 1>>
   /\ JP(Scale(a, 2), b) = j /\ JP(a, Scale(b, 3)) = j
   /\ PrintT(<<"JP", ToJson([a |-> a, b |-> b, num |-> j[1], den |-> j[2]])>>)

VARIABLE dummy
Init == dummy = 0
Next == dummy' = dummy
================================================================================
