--------------------------- MODULE TraceCardinality ---------------------------
(* Trace validation for C06 (direction implementation -> specification).           *)
(* A trace is a header line followed by runs recorded from real SetSketcher        *)
(* instances (harness/src/bin/c06.rs).  A run starts with a "new" event (m, ninst, *)
(* pc = parameter class per instance, e0 = estimate of every fresh instance).      *)
(* After every call the estimate get_cardinal_stats().0 of the receiver is logged  *)
(* as a RANK among all estimates of the run (order isomorphism; equal doubles get  *)
(* equal ranks, NaN would get -1).  Items are atoms: one identifier, or a bulk of  *)
(* fresh identifiers that is only ever re-streamed as a whole.                      *)
(*                                                                                 *)
(* Layer A state kept by the specification: set[i] = atoms streamed or merged into *)
(* instance i, est[i] = its last estimate.  Demanded from the recorded history:    *)
(*   sk   a new atom:        the estimate does not decrease                        *)
(*   dup  a repeated atom:   the estimate is bit-identical                         *)
(*   mg   accepted merge:    the estimate does not decrease; merging in a subset   *)
(*                           leaves it bit-identical; refused merge: unchanged     *)
(*   par  MleJaccard::get_cardinal_estimate(registers) (rayon reduction) against   *)
(*        the sketcher's own estimate: distance in representable doubles ("ulps")  *)
(*        at most ParBound(m, kl), for every repetition in ds                      *)
(*                                                                                 *)
(* ParBound, from the error analysis (not from measurements):                      *)
(*   both sides evaluate est = C / ((a ln b) * S), S = Sum_p t_p, t_p = b^-K[p].   *)
(*   Summation: any order/association of m positive doubles has relative error     *)
(*   <= (m-1)u(1+..), u = 2^-53 (Cardinality.tla: ErrBound/Higham); two orders     *)
(*   differ by <= (m-1) ulp of the larger sum, i.e. <= 2(m-1) representable        *)
(*   doubles (PairBound).  Scaling: one multiplication and one division on each    *)
(*   side, <= 1/2 ulp each: + 4.  Terms: b^-k may legitimately be evaluated by     *)
(*   another equally accurate formula on either side; exp(-k ln b) carries a       *)
(*   relative error <= (2 k ln b + 1) u (rounded ln b, rounded product, rounded    *)
(*   exp), so each side is allowed 2 kl + 2 ulps with kl = ceil(Kmax ln b): that   *)
(*   allowance is 0 for the code as it is (identical terms on both sides).         *)
EXTENDS Integers, Sequences, FiniteSets, TLC, Json, IOUtils

Rec == ndJsonDeserialize(IOEnv.TRACE)

VARIABLES l, h, est, set
vars == <<l, h, est, set>>

ParBound(m, kl) == 2 * (m - 1) + 4 + 2 * (2 * kl + 2)

TraceInit == l = 2 /\ h = [m |-> 0, ninst |-> 0] /\ est = <<>> /\ set = <<>>

IsEvent(e) == l <= Len(Rec) /\ Rec[l].op = e /\ l' = l + 1
Inst == 1..h.ninst

New == /\ IsEvent("new")
       /\ LET r == Rec[l] IN
          /\ Len(r.e0) = r.ninst /\ Len(r.pc) = r.ninst
          /\ \A i \in 1..r.ninst : r.e0[i] >= 1
          \* the estimate of an empty sketch is a function of the parameters
          /\ \A i, j \in 1..r.ninst : r.pc[i] = r.pc[j] => r.e0[i] = r.e0[j]
          /\ h' = r
          /\ est' = r.e0
          /\ set' = [i \in 1..r.ninst |-> {}]

Sketch == /\ IsEvent("sk")
          /\ LET r == Rec[l]  i == r.i IN
             /\ i \in Inst /\ r.x \notin set[i]
             /\ r.e >= est[i]
             /\ est' = [est EXCEPT ![i] = r.e]
             /\ set' = [set EXCEPT ![i] = @ \cup {r.x}]
          /\ UNCHANGED h

Dup == /\ IsEvent("dup")
       /\ LET r == Rec[l]  i == r.i IN
          /\ i \in Inst /\ r.x \in set[i]
          /\ r.e = est[i]
       /\ UNCHANGED <<h, est, set>>

Merge == /\ IsEvent("mg")
         /\ LET r == Rec[l]  i == r.i  j == r.j IN
            /\ i \in Inst /\ j \in Inst /\ i # j
            /\ r.out \in {"ok", "refused"}
            /\ IF r.out = "ok"
                 THEN /\ r.e >= est[i]
                      /\ (set[j] \subseteq set[i]) => r.e = est[i]
                      /\ est' = [est EXCEPT ![i] = r.e]
                      /\ set' = [set EXCEPT ![i] = @ \cup set[j]]
                 ELSE /\ r.e = est[i]
                      /\ UNCHANGED <<est, set>>
         /\ UNCHANGED h

Par == /\ IsEvent("par")
       /\ LET r == Rec[l]  i == r.i IN
          /\ i \in Inst /\ r.m = h.m /\ r.kl >= 0
          /\ r.e = est[i]                       \* reading the estimate does not change it
          /\ Len(r.ds) >= 1
          /\ \A k \in 1..Len(r.ds) : r.ds[k] >= 0 /\ r.ds[k] <= ParBound(h.m, r.kl)
       /\ UNCHANGED <<h, est, set>>

TraceNext == New \/ Sketch \/ Dup \/ Merge \/ Par
TraceSpec == TraceInit /\ [][TraceNext]_vars

TraceAccepted ==
  LET d == TLCGet("stats").diameter IN
  IF d = Len(Rec) THEN TRUE
  ELSE PrintT(<<"TRACE-REJECT", d, Len(Rec)>>) /\ FALSE
================================================================================
