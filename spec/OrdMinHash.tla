------------------------------- MODULE OrdMinHash -------------------------------
(* ProbOrdMinHash2::hash_set (src/probminhasher/probordminhash2.rs), Layer B against *)
(* Layer A; C10 (structure), C11, C13 (self-clearing call).                           *)
(*                                                                                    *)
(* A pair p = (element, occurrence) owns M increasing race values base[p][1..M]       *)
(* offered to the positions perm[p][1..M] (a permutation); all chosen in Init, made   *)
(* globally distinct by Val = base*N + p.  The store keeps per position the L         *)
(* smallest (value, pair).  max tracker: Lth(pos) = L-th smallest value of the        *)
(* position (INF until L entries), MaxAll = maximum over the positions.               *)
(* Layer B: for every pair in sequence order: offer point j to position perm[p][j],   *)
(*          insert iff below that position's L-th value; stop when the value can no   *)
(*          longer be accepted by ANY position (x >= MaxAll) or after M points.       *)
(* BreakOnReject = TRUE is the code before the repair in /repo: stop at the first     *)
(* rejected offer (TLC refutes SelectionIsLSmallest).                                 *)
(* Layer A: the pairs kept at a position are the L pairs with the smallest table      *)
(*          values there: a function of the multiset, not of the order.               *)
EXTENDS Integers, Sequences, FiniteSets, TLC

CONSTANTS M, L, N, B, BreakOnReject

Pairs == 1..N
Pos   == 1..M
INF   == 1000000
Perms == {p \in [Pos -> Pos] : \A i, j \in Pos : i # j => p[i] # p[j]}
StrictInc == {s \in [Pos -> 0..B] : \A i \in 1..(M-1) : s[i] < s[i+1]}
Orders == {o \in [1..N -> Pairs] : \A i, j \in 1..N : i # j => o[i] # o[j]}

VARIABLES base, perm, order, store, idx, calls
vars == <<base, perm, order, store, idx, calls>>

Val(p, j) == base[p][j] * N + p
T(p, pos) == LET j == CHOOSE j \in Pos : perm[p][j] = pos IN Val(p, j)

Lth(st, pos) == IF Cardinality(st[pos]) < L THEN INF
                ELSE LET vs == {e[1] : e \in st[pos]} IN CHOOSE v \in vs : \A w \in vs : w <= v
MaxAll(st) == LET vs == {Lth(st, pos) : pos \in Pos} IN CHOOSE v \in vs : \A w \in vs : w <= v
Insert(st, pos, x, p) ==
  LET cur == st[pos] \cup {<<x, p>>} IN
  IF Cardinality(cur) <= L THEN [st EXCEPT ![pos] = cur]
  ELSE LET mx == CHOOSE e \in cur : \A f \in cur : f[1] <= e[1] IN [st EXCEPT ![pos] = cur \ {mx}]

RECURSIVE Loop(_, _, _)
Loop(p, j, st) ==
  LET x == Val(p, j) IN
  IF ~(x < MaxAll(st)) THEN st
  ELSE LET k == perm[p][j]
           ins == x < Lth(st, k)
           st2 == IF ins THEN Insert(st, k, x, p) ELSE st
       IN IF BreakOnReject /\ ~ins THEN st2
          ELSE IF ~(x < MaxAll(st2)) THEN st2
          ELSE IF j >= M THEN st2
          ELSE Loop(p, j+1, st2)

Init == /\ base \in [Pairs -> StrictInc] /\ perm \in [Pairs -> Perms] /\ order \in Orders
        /\ store = [pos \in Pos |-> {}] /\ idx = 1 /\ calls = 0

Step == /\ idx <= N
        /\ store' = Loop(order[idx], 1, store)
        /\ idx' = idx + 1
        /\ UNCHANGED <<base, perm, order, calls>>

(* a second hash_set on the same instance starts from a cleared store (C13) *)
Again == /\ idx = N + 1 /\ calls = 0
         /\ store' = [pos \in Pos |-> {}] /\ idx' = 1 /\ calls' = 1
         /\ UNCHANGED <<base, perm, order>>

Spec == Init /\ [][Step \/ Again]_vars

Smallest(pos) == {p \in Pairs : Cardinality({q \in Pairs : T(q, pos) < T(p, pos)}) < L}
SelectionIsLSmallest == idx = N + 1 => \A pos \in Pos : {e[2] : e \in store[pos]} = Smallest(pos)
StoreBounded == \A pos \in Pos : Cardinality(store[pos]) <= L
================================================================================
