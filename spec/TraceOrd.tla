-------------------------------- MODULE TraceOrd --------------------------------
(* Trace validation for ProbOrdMinHash2 (C11; self-clearing hash_set of C13).       *)
(* A run fixes m, l, the pinned instance seed and the pairs (element, occurrence)   *)
(* with their measured race tables tab[pair][pos] (rank-abstracted).  Every "hs"    *)
(* event is one hash_set call on the SAME instance: order[i] = pair at sequence     *)
(* index i, sel[pos] = pairs selected for the position (from the store accessor,    *)
(* in index order), sigeq[pos] = the signature equals the combined hash of the      *)
(* spelled l elements (dictionary through the public API), sorted = indices are in  *)
(* sequence order.                                                                  *)
(* Layer A: the pairs selected for a position are the l pairs of the sequence with  *)
(* the smallest table values there - a function of the multiset only.  The race     *)
(* values of different pairs are continuous and independent, so an exact tie at the *)
(* selection boundary does not happen unless two pairs share their random stream -  *)
(* which makes the selection depend on the order of the sequence; it is therefore   *)
(* rejected (strict inequality) and not tolerated.                                  *)
EXTENDS Integers, Sequences, FiniteSets, TLC, Json, IOUtils

Rec == ndJsonDeserialize(IOEnv.TRACE)

VARIABLES l, h
vars == <<l, h>>

Range(s) == {s[i] : i \in 1..Len(s)}

(* S is a valid choice of the L smallest of P at position pos *)
ValidSelection(S, P, pos) ==
  /\ S \subseteq P /\ Cardinality(S) = h.l
  /\ \A p \in S, q \in P \ S : h.tab[p][pos] < h.tab[q][pos]

HsOK(r) ==
  LET P == Range(r.order) IN
  /\ r.out = "ok"
  /\ Cardinality(P) = Len(r.order)                      \* (element, occurrence) pairs are distinct
  /\ r.sorted
  /\ Len(r.sel) = h.m
  /\ \A pos \in 1..h.m :
       /\ Len(r.sel[pos]) = h.l
       /\ ValidSelection(Range(r.sel[pos]), P, pos)
       /\ r.sigeq[pos]

TraceInit == l = 2 /\ h = [m |-> 0]
IsEvent(e) == l <= Len(Rec) /\ Rec[l].op = e /\ l' = l + 1
New == IsEvent("new") /\ h' = Rec[l]
Hs  == IsEvent("hs") /\ HsOK(Rec[l]) /\ UNCHANGED h
TraceNext == New \/ Hs
TraceSpec == TraceInit /\ [][TraceNext]_vars

TraceAccepted ==
  LET d == TLCGet("stats").diameter IN
  IF d = Len(Rec) THEN TRUE
  ELSE PrintT(<<"TRACE-REJECT", d, Len(Rec)>>) /\ FALSE
================================================================================
