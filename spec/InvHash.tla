------------------------------ MODULE InvHash ------------------------------
(* C19 - Thomas Wang's invertible integer hashes of /repo/src/invhash.rs and their inverses.   *)
(*                                                                                            *)
(* Words are bit functions [0..W-1 -> {0,1}] (bit 0 = least significant); TLC has 32-bit       *)
(* integers, so nothing here relies on TLC arithmetic beyond 16-bit limbs and bit sums.        *)
(*                                                                                            *)
(* Every source statement of int64_hash (7), int64_hash_inverse (16), int32_hash (6) and      *)
(* int32_hash_inverse (6) is one entry of the table Stmt (destination variable + expression   *)
(* tree) and one action of Next.  Expressions are *trees* built from typed combinators, not    *)
(* values, so that TLC can both evaluate them (Eval) and classify them (ClassOf):              *)
(*                                                                                            *)
(*   class "L"  GF(2)-linear maps of the pair (key,tmp):  key, tmp, Xor, Shr, Shl             *)
(*   class "A"  affine maps over Z/2^W of the pair (key,tmp), (k,t) |-> a*k + c*t + b:        *)
(*              key, tmp, Add, Sub, Not (= -x-1), Shl (= 2^n * x), MulC (constant factor)     *)
(*                                                                                            *)
(* Both classes are closed under composition, and sequencing statements that assign key or    *)
(* tmp an expression of the class again gives a map of the class.                             *)
(*                                                                                            *)
(* THE UNIVERSAL CLAIM BY A FINITE BASIS.  Blocks pairs each forward statement s_i with the    *)
(* group of inverse statements t_i that undoes it; ASSUME BlocksOK lets TLC check that          *)
(*   (1) the forward program is s_1 ; ... ; s_n and the inverse program is t_n ; ... ; t_1     *)
(*       (statement lists identical to the source order),                                      *)
(*   (2) all statements of a pair belong to the class declared for the pair (ClassOf).         *)
(* In mode "blocks" TLC runs  s_i ; t_i  and  t_i ; s_i  from the generators of the class,     *)
(* placed in key (tmp = 0) and in tmp (key = 0), and checks RoundTrip: final key = initial key.*)
(*   class L:  F(k,t) = A k (+) C t.   F(e_j,0) = e_j for all j gives A = I, F(0,e_j) = 0      *)
(*             gives C = 0, so F(k,t) = k for all 2^W * 2^W pairs.                             *)
(*   class A:  F(k,t) = a k + c t + b. F(0,0) = 0, F(1,0) = 1, F(0,1) = 0 give b=0, a=1, c=0.  *)
(* Hence t_i o s_i = s_i o t_i = id on all words and whatever tmp holds on entry, and by        *)
(* telescoping  inverse o hash = hash o inverse = id  for all 2^W words OF THIS SPEC.          *)
(* The binding to the Rust code is TraceInvHash.tla (code = spec on recorded inputs) and, for  *)
(* W = 32, the exhaustive run of the real functions in the harness.                            *)
(*                                                                                            *)
(* Mode "roundtrip" additionally runs the complete programs hash;inverse and inverse;hash on   *)
(* the structured words Inputs (no algebra involved).                                          *)
(*                                                                                            *)
(* Mut # "none" plants one error (anti-vacuity of RoundTrip, see lib/c19.py selftest).         *)
EXTENDS Naturals, Sequences, FiniteSets, TLC

CONSTANTS W,      \* 64 or 32
          Mode,   \* "blocks" | "roundtrip" | "trace"
          Mut     \* "none" | name of a planted error

ASSUME W \in {32, 64}

Idx == 0..W-1

--------------------------------------------------------------------------------
(* words                                                                        *)
Zero == TLCEval([i \in Idx |-> 0])
Ones == TLCEval([i \in Idx |-> 1])
Bit(i) == TLCEval([j \in Idx |-> IF j = i THEN 1 ELSE 0])
One == Bit(0)
Low(k) == TLCEval([i \in Idx |-> IF i < k THEN 1 ELSE 0])          \* 2^k - 1
WNot(a) == TLCEval([i \in Idx |-> 1 - a[i]])
WXor(a, b) == TLCEval([i \in Idx |-> (a[i] + b[i]) % 2])
WShl(a, k) == TLCEval([i \in Idx |-> IF i >= k THEN a[i - k] ELSE 0])
WShr(a, k) == TLCEval([i \in Idx |-> IF i + k < W THEN a[i + k] ELSE 0])
\* ripple carry: sum bit i = a[i] + b[i] + carry, wrapping at W (wrapping_add)
RECURSIVE AddFrom(_, _, _, _, _)
AddFrom(a, b, i, c, acc) ==
  IF i = W THEN acc
  ELSE LET s == a[i] + b[i] + c IN AddFrom(a, b, i + 1, s \div 2, [acc EXCEPT ![i] = s % 2])
WAdd(a, b) == AddFrom(a, b, 0, 0, Zero)
WSub(a, b) == AddFrom(a, WNot(b), 0, 1, Zero)                       \* a + ~b + 1 (wrapping_sub)
\* shift-and-add product with a constant word (wrapping_mul)
RECURSIVE MulFrom(_, _, _, _)
MulFrom(a, c, i, acc) ==
  IF i = W THEN acc ELSE MulFrom(a, c, i + 1, IF c[i] = 1 THEN WAdd(acc, WShl(a, i)) ELSE acc)
WMul(a, c) == MulFrom(a, c, 0, Zero)
\* constants are written as 16-bit limbs, least significant limb first
RECURSIVE BitOf(_, _)
BitOf(n, i) == IF i = 0 THEN n % 2 ELSE BitOf(n \div 2, i - 1)
CWord(l) == TLCEval([i \in Idx |-> IF (i \div 16) + 1 <= Len(l) THEN BitOf(l[(i \div 16) + 1], i % 16) ELSE 0])

--------------------------------------------------------------------------------
(* typed expression trees                                                       *)
K == <<"key">>
T == <<"tmp">>
Not(e) == <<"not", e>>
Add(a, b) == <<"add", a, b>>
Sub(a, b) == <<"sub", a, b>>
Xor(a, b) == <<"xor", a, b>>
Shl(e, n) == <<"shl", e, n>>
Shr(e, n) == <<"shr", e, n>>
MulC(e, limbs) == <<"mulc", e, limbs>>

RECURSIVE Eval(_, _, _)
Eval(e, k, t) ==
  CASE e[1] = "key"  -> k
    [] e[1] = "tmp"  -> t
    [] e[1] = "not"  -> WNot(Eval(e[2], k, t))
    [] e[1] = "add"  -> WAdd(Eval(e[2], k, t), Eval(e[3], k, t))
    [] e[1] = "sub"  -> WSub(Eval(e[2], k, t), Eval(e[3], k, t))
    [] e[1] = "xor"  -> WXor(Eval(e[2], k, t), Eval(e[3], k, t))
    [] e[1] = "shl"  -> WShl(Eval(e[2], k, t), e[3])
    [] e[1] = "shr"  -> WShr(Eval(e[2], k, t), e[3])
    [] e[1] = "mulc" -> WMul(Eval(e[2], k, t), CWord(e[3]))

\* the classes an expression belongs to, by its construction
RECURSIVE ClassOf(_)
ClassOf(e) ==
  CASE e[1] \in {"key", "tmp"} -> {"L", "A"}
    [] e[1] = "shl"            -> ClassOf(e[2])
    [] e[1] = "shr"            -> ClassOf(e[2]) \cap {"L"}
    [] e[1] = "xor"            -> ClassOf(e[2]) \cap ClassOf(e[3]) \cap {"L"}
    [] e[1] = "not"            -> ClassOf(e[2]) \cap {"A"}
    [] e[1] \in {"add", "sub"} -> ClassOf(e[2]) \cap ClassOf(e[3]) \cap {"A"}
    [] e[1] = "mulc"           -> ClassOf(e[2]) \cap {"A"}

--------------------------------------------------------------------------------
(* the source statements, /repo/src/invhash.rs                                   *)
\* 14933078535860113213 = 0xCF3C F3CF 3CF3 CF3D,  15244667743933553977 = 0xD38F F08B 1C03 DD39
C21inv  == IF Mut = "mul21_hi" THEN <<53053, 15603, 62415, 20284>> ELSE <<53053, 15603, 62415, 53052>>
C265inv == <<56633, 7171, 61579, 54159>>
\* 4290770943 = 0xFFBF F7FF, 954437177 = 0x38E3 8E39, 3221192703 = 0xBFFF 7FFF
C32a == <<63487, 65471>>
C32b == IF Mut = "mul9_hi" THEN <<36409, 47331>> ELSE <<36409, 14563>>
C32c == <<32767, 49151>>

Stmt == [
  \* ---- int64_hash
  h64_1 |-> [dst |-> "key", e |-> Add(Not(K), Shl(K, 21))],              \* key = (!key).wrapping_add(key << 21);
  h64_2 |-> [dst |-> "key", e |-> Xor(K, Shr(K, 24))],                   \* key = key ^ key >> 24;
  h64_3 |-> [dst |-> "key", e |-> Add(Add(K, Shl(K, 3)), Shl(K, 8))],    \* key = key.wrapping_add(key << 3).wrapping_add(key << 8);
  h64_4 |-> [dst |-> "key", e |-> Xor(K, Shr(K, 14))],                   \* key = key ^ key >> 14;
  h64_5 |-> [dst |-> "key", e |-> Add(Add(K, Shl(K, 2)), Shl(K, 4))],    \* key = key.wrapping_add(key << 2).wrapping_add(key << 4);
  h64_6 |-> [dst |-> "key", e |-> Xor(K, Shr(K, 28))],                   \* key = key ^ key >> 28;
  h64_7 |-> [dst |-> "key", e |-> Add(K, Shl(K, 31))],                   \* key = key.wrapping_add(key << 31);
  \* ---- int64_hash_inverse
  i64_1  |-> [dst |-> "tmp", e |-> Sub(K, Shl(K, 31))],                  \* let mut tmp: u64 = key.wrapping_sub(key << 31);
  i64_2  |-> [dst |-> "key", e |-> IF Mut = "xor_in_affine" THEN Xor(K, Shl(T, 31)) ELSE Sub(K, Shl(T, 31))],   \* key = key.wrapping_sub(tmp << 31);
  i64_3  |-> [dst |-> "tmp", e |-> Xor(K, Shr(K, 28))],                  \* tmp = key ^ key >> 28;
  i64_4  |-> [dst |-> "key", e |-> Xor(K, Shr(T, IF Mut = "shr27" THEN 27 ELSE 28))],   \* key ^= tmp >> 28;
  i64_5  |-> [dst |-> "key", e |-> MulC(K, C21inv)],                     \* key = key.wrapping_mul(14933078535860113213u64);
  i64_6  |-> [dst |-> "tmp", e |-> Xor(K, Shr(K, 14))],                  \* tmp = key ^ key >> 14;
  i64_7  |-> [dst |-> "tmp", e |-> Xor(K, Shr(T, 14))],                  \* tmp = key ^ tmp >> 14;
  i64_8  |-> [dst |-> "tmp", e |-> IF Mut = "drop14" THEN T ELSE Xor(K, Shr(T, 14))],   \* tmp = key ^ tmp >> 14;
  i64_9  |-> [dst |-> "key", e |-> Xor(K, Shr(T, 14))],                  \* key ^= tmp >> 14;
  i64_10 |-> [dst |-> "key", e |-> MulC(K, C265inv)],                    \* key = key.wrapping_mul(15244667743933553977u64);
  i64_11 |-> [dst |-> "tmp", e |-> Xor(K, Shr(K, 24))],                  \* tmp = key ^ key >> 24;
  i64_12 |-> [dst |-> "key", e |-> Xor(K, Shr(T, 24))],                  \* key ^= tmp >> 24;
  i64_13 |-> [dst |-> "tmp", e |-> Not(K)],                              \* tmp = !key;
  i64_14 |-> [dst |-> "tmp", e |-> Not(Sub(K, Shl(T, 21)))],             \* tmp = !(key.wrapping_sub(tmp << 21));
  i64_15 |-> [dst |-> "tmp", e |-> Not(Sub(K, Shl(T, IF Mut = "shl22" THEN 22 ELSE 21)))],  \* tmp = !(key.wrapping_sub(tmp << 21));
  i64_16 |-> [dst |-> "key", e |-> Not(Sub(K, Shl(T, 21)))],             \* key = !(key.wrapping_sub(tmp << 21));
  \* ---- int32_hash
  h32_1 |-> [dst |-> "key", e |-> Add(K, Not(Shl(K, 15)))],              \* key = key.wrapping_add(!(key << 15));
  h32_2 |-> [dst |-> "key", e |-> Xor(K, Shr(K, 10))],                   \* key = key ^ (key >> 10);
  h32_3 |-> [dst |-> "key", e |-> Add(K, Shl(K, 3))],                    \* key = key.wrapping_add(key << 3);
  h32_4 |-> [dst |-> "key", e |-> Xor(K, Shr(K, 6))],                    \* key = key ^ (key >> 6);
  h32_5 |-> [dst |-> "key", e |-> Add(K, Not(Shl(K, 11)))],              \* key = key.wrapping_add(!(key << 11));
  h32_6 |-> [dst |-> "key", e |-> Xor(K, Shr(K, 16))],                   \* key = key ^ (key >> 16);
  \* ---- int32_hash_inverse
  i32_1 |-> [dst |-> "key", e |-> Xor(K, Shr(K, 16))],                   \* val = val ^ (val >> 16);
  i32_2 |-> [dst |-> "key", e |-> MulC(Not(K), C32a)],                   \* val = (!val).wrapping_mul(4290770943);
  i32_3 |-> [dst |-> "key", e |-> IF Mut = "drop30"                      \* val = val ^ (val >> 6) ^ (val >> 12) ^ (val >> 18) ^ (val >> 24) ^ (val >> 30);
                                   THEN Xor(Xor(Xor(Xor(K, Shr(K, 6)), Shr(K, 12)), Shr(K, 18)), Shr(K, 24))
                                   ELSE Xor(Xor(Xor(Xor(Xor(K, Shr(K, 6)), Shr(K, 12)), Shr(K, 18)), Shr(K, 24)), Shr(K, 30))],
  i32_4 |-> [dst |-> "key", e |-> MulC(K, C32b)],                        \* val = val.wrapping_mul(954437177);
  i32_5 |-> [dst |-> "key", e |-> Xor(Xor(Xor(K, Shr(K, 10)), Shr(K, 20)), Shr(K, 30))],   \* val = val ^ (val >> 10) ^ (val >> 20) ^ (val >> 30);
  i32_6 |-> [dst |-> "key", e |-> MulC(Not(K), C32c)]                    \* val = (!val).wrapping_mul(3221192703);
]

\* programs in source order
H64 == <<"h64_1", "h64_2", "h64_3", "h64_4", "h64_5", "h64_6", "h64_7">>
I64 == <<"i64_1", "i64_2", "i64_3", "i64_4", "i64_5", "i64_6", "i64_7", "i64_8", "i64_9", "i64_10",
         "i64_11", "i64_12", "i64_13", "i64_14", "i64_15", "i64_16">>
H32 == <<"h32_1", "h32_2", "h32_3", "h32_4", "h32_5", "h32_6">>
I32 == <<"i32_1", "i32_2", "i32_3", "i32_4", "i32_5", "i32_6">>
Fwd == IF W = 64 THEN H64 ELSE H32
Inv == IF W = 64 THEN I64 ELSE I32

(* forward statement s_i, the inverse statements t_i that undo it, and their common class:      *)
(*  64 bit  s1  k*(2^21-1) - 1          t1  four lines, fixed-point iteration of x = ~(k - (x<<21)) *)
(*          s2  k ^ k>>24               t2  k ^ (k ^ k>>24)>>24       (k>>72 = 0)               *)
(*          s3  k*265                   t3  k * 265^-1                                          *)
(*          s4  k ^ k>>14               t4  four lines, k ^ k>>14 ^ k>>28 ^ k>>42 ^ k>>56       *)
(*          s5  k*21                    t5  k * 21^-1                                           *)
(*          s6  k ^ k>>28               t6  k ^ k>>28 ^ k>>56                                   *)
(*          s7  k*(1+2^31)              t7  k*(1 - 2^31 + 2^62)                                 *)
(*  32 bit  s1  k*(1-2^15) - 1          t1  (~k) * (2^15-1)^-1                                  *)
(*          s2  k ^ k>>10               t2  k ^ k>>10 ^ k>>20 ^ k>>30                           *)
(*          s3  k*9                     t3  k * 9^-1                                            *)
(*          s4  k ^ k>>6                t4  k ^ k>>6 ^ ... ^ k>>30                              *)
(*          s5  k*(1-2^11) - 1          t5  (~k) * (2^11-1)^-1                                  *)
(*          s6  k ^ k>>16               t6  k ^ k>>16                                           *)
(* (the closed forms are comments only; what is checked is ClassOf and the generator runs)      *)
Blocks64 == <<
  [cls |-> "A", f |-> <<"h64_1">>, b |-> <<"i64_13", "i64_14", "i64_15", "i64_16">>],
  [cls |-> "L", f |-> <<"h64_2">>, b |-> <<"i64_11", "i64_12">>],
  [cls |-> "A", f |-> <<"h64_3">>, b |-> <<"i64_10">>],
  [cls |-> "L", f |-> <<"h64_4">>, b |-> <<"i64_6", "i64_7", "i64_8", "i64_9">>],
  [cls |-> "A", f |-> <<"h64_5">>, b |-> <<"i64_5">>],
  [cls |-> "L", f |-> <<"h64_6">>, b |-> <<"i64_3", "i64_4">>],
  [cls |-> "A", f |-> <<"h64_7">>, b |-> <<"i64_1", "i64_2">>] >>
Blocks32 == <<
  [cls |-> "A", f |-> <<"h32_1">>, b |-> <<"i32_6">>],
  [cls |-> "L", f |-> <<"h32_2">>, b |-> <<"i32_5">>],
  [cls |-> "A", f |-> <<"h32_3">>, b |-> <<"i32_4">>],
  [cls |-> "L", f |-> <<"h32_4">>, b |-> <<"i32_3">>],
  [cls |-> "A", f |-> <<"h32_5">>, b |-> <<"i32_2">>],
  [cls |-> "L", f |-> <<"h32_6">>, b |-> <<"i32_1">>] >>
Blocks == IF W = 64 THEN Blocks64 ELSE Blocks32
NB == Len(Blocks)

RECURSIVE CatF(_)
CatF(i) == IF i = 0 THEN <<>> ELSE CatF(i - 1) \o Blocks[i].f               \* s_1 ; ... ; s_i
RECURSIVE CatB(_)
CatB(i) == IF i > NB THEN <<>> ELSE CatB(i + 1) \o Blocks[i].b              \* t_n ; ... ; t_i
Range(s) == {s[j] : j \in 1..Len(s)}

BlocksOK ==
  /\ CatF(NB) = Fwd                                  \* (1) the pairs tile both programs, inverse in reverse order
  /\ CatB(1) = Inv
  /\ \A i \in 1..NB : \A n \in Range(Blocks[i].f) \cup Range(Blocks[i].b) :
        Blocks[i].cls \in ClassOf(Stmt[n].e)         \* (2) class membership by construction
ASSUME Mode = "blocks" => (BlocksOK /\ PrintT(<<"BLOCKSOK", W, NB>>))

\* generators of the two classes
Gen(cls) == IF cls = "L" THEN {Zero} \cup {Bit(i) : i \in Idx} ELSE {Zero, One}

\* structured words for the whole-program round trips
Alt(p) == TLCEval([i \in Idx |-> IF (i \div p) % 2 = 0 THEN 1 ELSE 0])
Inputs == {Zero, Ones} \cup {Bit(i) : i \in Idx} \cup {WNot(Bit(i)) : i \in Idx}
          \cup {Low(k) : k \in 1..(W - 1)} \cup {WNot(Low(k)) : k \in 1..(W - 1)}
          \cup {Alt(p) : p \in {1, 2, 4, 8, 16}} \cup {WNot(Alt(p)) : p \in {1, 2, 4, 8, 16}}
          \cup {WAdd(Bit(i), One) : i \in 1..(W - 1)}

--------------------------------------------------------------------------------
VARIABLES prog,   \* the statement list being executed (fixed along a behaviour)
          pc,     \* index of the next statement
          key, tmp,
          want    \* the word the final key has to equal
vars == <<prog, pc, key, tmp, want>>

Done == pc > Len(prog)

InitBlocks ==
  \E i \in 1..NB : \E order \in {"s;t", "t;s"} : \E g \in Gen(Blocks[i].cls) : \E side \in {"key", "tmp"} :
    /\ prog = IF order = "s;t" THEN Blocks[i].f \o Blocks[i].b ELSE Blocks[i].b \o Blocks[i].f
    /\ key = IF side = "key" THEN g ELSE Zero
    /\ tmp = IF side = "tmp" THEN g ELSE Zero
    /\ want = key
    /\ pc = 1

InitRT ==
  \E order \in {"hash;inverse", "inverse;hash"} :
    /\ prog = IF order = "hash;inverse" THEN Fwd \o Inv ELSE Inv \o Fwd
    /\ key \in Inputs
    /\ tmp = Zero
    /\ want = key
    /\ pc = 1

Init == IF Mode = "blocks" THEN InitBlocks ELSE InitRT

At(name) == pc <= Len(prog) /\ prog[pc] = name
Exec(name) ==
  /\ LET s == Stmt[name] IN
       IF s.dst = "key" THEN key' = Eval(s.e, key, tmp) /\ tmp' = tmp
                        ELSE tmp' = Eval(s.e, key, tmp) /\ key' = key
  /\ pc' = pc + 1
  /\ UNCHANGED <<prog, want>>

\* one action per source statement (its destination and expression are Stmt[name])
H64_1 == At("h64_1") /\ Exec("h64_1")
H64_2 == At("h64_2") /\ Exec("h64_2")
H64_3 == At("h64_3") /\ Exec("h64_3")
H64_4 == At("h64_4") /\ Exec("h64_4")
H64_5 == At("h64_5") /\ Exec("h64_5")
H64_6 == At("h64_6") /\ Exec("h64_6")
H64_7 == At("h64_7") /\ Exec("h64_7")
I64_1 == At("i64_1") /\ Exec("i64_1")
I64_2 == At("i64_2") /\ Exec("i64_2")
I64_3 == At("i64_3") /\ Exec("i64_3")
I64_4 == At("i64_4") /\ Exec("i64_4")
I64_5 == At("i64_5") /\ Exec("i64_5")
I64_6 == At("i64_6") /\ Exec("i64_6")
I64_7 == At("i64_7") /\ Exec("i64_7")
I64_8 == At("i64_8") /\ Exec("i64_8")
I64_9 == At("i64_9") /\ Exec("i64_9")
I64_10 == At("i64_10") /\ Exec("i64_10")
I64_11 == At("i64_11") /\ Exec("i64_11")
I64_12 == At("i64_12") /\ Exec("i64_12")
I64_13 == At("i64_13") /\ Exec("i64_13")
I64_14 == At("i64_14") /\ Exec("i64_14")
I64_15 == At("i64_15") /\ Exec("i64_15")
I64_16 == At("i64_16") /\ Exec("i64_16")
H32_1 == At("h32_1") /\ Exec("h32_1")
H32_2 == At("h32_2") /\ Exec("h32_2")
H32_3 == At("h32_3") /\ Exec("h32_3")
H32_4 == At("h32_4") /\ Exec("h32_4")
H32_5 == At("h32_5") /\ Exec("h32_5")
H32_6 == At("h32_6") /\ Exec("h32_6")
I32_1 == At("i32_1") /\ Exec("i32_1")
I32_2 == At("i32_2") /\ Exec("i32_2")
I32_3 == At("i32_3") /\ Exec("i32_3")
I32_4 == At("i32_4") /\ Exec("i32_4")
I32_5 == At("i32_5") /\ Exec("i32_5")
I32_6 == At("i32_6") /\ Exec("i32_6")

Next64 == \/ H64_1 \/ H64_2 \/ H64_3 \/ H64_4 \/ H64_5 \/ H64_6 \/ H64_7
          \/ I64_1 \/ I64_2 \/ I64_3 \/ I64_4 \/ I64_5 \/ I64_6 \/ I64_7 \/ I64_8
          \/ I64_9 \/ I64_10 \/ I64_11 \/ I64_12 \/ I64_13 \/ I64_14 \/ I64_15 \/ I64_16
Next32 == \/ H32_1 \/ H32_2 \/ H32_3 \/ H32_4 \/ H32_5 \/ H32_6
          \/ I32_1 \/ I32_2 \/ I32_3 \/ I32_4 \/ I32_5 \/ I32_6
Next == Next64 \/ Next32

Spec == Init /\ [][Next]_vars

\* the property: after s;t, t;s, hash;inverse or inverse;hash the key is the word we started from
RoundTrip == Done => key = want
================================================================================
