CONSTANTS
  M = 3
  V = 3
  Emit = TRUE
SPECIFICATION Spec
VIEW view
INVARIANTS InvLeaves InvMax InvTree InvPossible InvReset
ACTION_CONSTRAINT EmitTransition
CHECK_DEADLOCK FALSE
