------------------------------- MODULE Schedule -------------------------------
(* Layer A of every sketcher, at the level of the abstract state the properties  *)
(* C02/C04/C05/C09/C13 talk about: per instance the SET of items streamed or     *)
(* merged in, and whether a densified sketch is finished.  TLC enumerates every  *)
(* API-call history up to Depth (items in first-use order: the identity of an    *)
(* item is irrelevant, the harness instantiates them with fresh identifiers) and *)
(* prints each complete history as one JSON line; the harness replays it on the  *)
(* real objects.  Ops:                                                           *)
(*   <<"sk", i, x>>  sketch item x on instance i                                 *)
(*   <<"sl", i, s>>  sketch_slice / batch entry point with the item sequence s   *)
(*   <<"mg", i, j>>  merge instance j into instance i                            *)
(*   <<"re", i>>     reinit / reset                                              *)
(*   <<"en", i>>     end_sketch (densified sketchers)                            *)
EXTENDS Integers, Sequences, FiniteSets, TLC, Json

CONSTANTS NItems, NInst, Depth, MaxSlice, HasSlice, HasMerge, HasReinit, HasEnd

Items == 1..NItems
Inst  == 1..NInst

VARIABLES hist, sets, fin, used
vars == <<hist, sets, fin, used>>

Init == /\ hist = <<>>
        /\ sets = [i \in Inst |-> {}]
        /\ fin  = [i \in Inst |-> FALSE]
        /\ used = 0                      \* items 1..used have occurred

(* items in first-use order *)
Fresh(x, u) == x <= u + 1
Bump(x, u)  == IF x = u + 1 THEN u + 1 ELSE u

RECURSIVE CanonSeq(_, _)
CanonSeq(s, u) == IF s = <<>> THEN TRUE
                  ELSE Fresh(Head(s), u) /\ CanonSeq(Tail(s), Bump(Head(s), u))
RECURSIVE UsedAfter(_, _)
UsedAfter(s, u) == IF s = <<>> THEN u ELSE UsedAfter(Tail(s), Bump(Head(s), u))

Slices == UNION {[1..n -> Items] : n \in 1..MaxSlice}

Sk(i, x) == /\ Fresh(x, used)
            /\ hist' = Append(hist, <<"sk", i, x>>)
            /\ sets' = [sets EXCEPT ![i] = @ \cup {x}]
            /\ used' = Bump(x, used)
            /\ UNCHANGED fin

Sl(i, s) == /\ HasSlice /\ CanonSeq(s, used)
            /\ hist' = Append(hist, <<"sl", i, s>>)
            /\ sets' = [sets EXCEPT ![i] = @ \cup {s[k] : k \in 1..Len(s)}]
            /\ used' = UsedAfter(s, used)
            /\ fin'  = [fin EXCEPT ![i] = IF HasEnd THEN TRUE ELSE @]   \* a slice call finishes a densified sketch

Mg(i, j) == /\ HasMerge /\ i # j
            /\ hist' = Append(hist, <<"mg", i, j>>)
            /\ sets' = [sets EXCEPT ![i] = @ \cup sets[j]]
            /\ UNCHANGED <<fin, used>>

Re(i) == /\ HasReinit
         /\ hist' = Append(hist, <<"re", i>>)
         /\ sets' = [sets EXCEPT ![i] = {}]
         /\ fin'  = [fin EXCEPT ![i] = FALSE]
         /\ UNCHANGED used

En(i) == /\ HasEnd
         /\ hist' = Append(hist, <<"en", i>>)
         /\ fin'  = [fin EXCEPT ![i] = TRUE]
         /\ UNCHANGED <<sets, used>>

Next == /\ Len(hist) < Depth
        /\ \/ \E i \in Inst, x \in Items : Sk(i, x)
           \/ \E i \in Inst, s \in Slices : Sl(i, s)
           \/ \E i, j \in Inst : Mg(i, j)
           \/ \E i \in Inst : Re(i)
           \/ \E i \in Inst : En(i)

Spec == Init /\ [][Next]_vars

(* Layer-A laws (trivial at this level, kept as sanity invariants of the generator) *)
SetsAreUsed == \A i \in Inst : sets[i] \subseteq 1..used

(* one JSON line per complete history *)
EmitHistory == (Len(hist) = Depth) => PrintT(<<"SCHED", ToJson([ops |-> hist, sets |-> [i \in Inst |-> sets[i]]])>>)
================================================================================
