--------------------------- MODULE SuperMinHashCount ---------------------------
(* C03, level L1: exact counting over the whole probability space of the ideal      *)
(* SuperMinHash design for tiny sizes.  A table gives every item x a permutation    *)
(* perm[x] (step j -> position) and all fractional parts a strict global ranking;   *)
(* the value of item x at position p is the pair (step at which x reaches p, rank   *)
(* of that fraction), compared lexicographically; a sketch is the position-wise     *)
(* minimum (SuperMinHash.tla shows the implementation computes exactly that).       *)
(* All tables are equally likely under the primitive law (uniform permutation,      *)
(* i.i.d. continuous fractions), so expectations are counts:                        *)
(*   unbiased :  Sum_tables matches * |A u B|  =  |tables| * M * |A n B|            *)
(*   MSE      :  Sum_tables (matches*U - M*I)^2  <=  |tables| * I * (U - I) * M     *)
(* for every overlap pattern (A, B) with A u B = all items.                          *)
EXTENDS Integers, Sequences, FiniteSets, TLC, Json

CONSTANTS M, N

Items == 1..N
Pos   == 1..M
Slots == 1..(N * M)                 \* slot of (item x, step j) is (x-1)*M + j
Perms == {f \in [Pos -> Pos] : \A i, j \in Pos : i # j => f[i] # f[j]}
Ranks == {r \in [Slots -> Slots] : \A i, j \in Slots : i # j => r[i] # r[j]}
Tables == [Items -> Perms] \X Ranks

StepAt(t, x, p) == CHOOSE j \in Pos : t[1][x][j] = p
ValLess(t, x, y, p) ==              \* value of x at p smaller than value of y at p
  LET jx == StepAt(t, x, p)  jy == StepAt(t, y, p) IN
  jx < jy \/ (jx = jy /\ t[2][(x-1)*M + jx] < t[2][(y-1)*M + jy])
ArgMin(t, S, p) == CHOOSE x \in S : \A y \in S \ {x} : ValLess(t, x, y, p)

Matches(t, I) == Cardinality({p \in Pos : ArgMin(t, Items, p) \in I})

Patterns == {ab \in (SUBSET Items) \X (SUBSET Items) : ab[1] \cup ab[2] = Items /\ ab[1] # {} /\ ab[2] # {}}

NT == Cardinality(Tables)
Hist(I) == [k \in 0..M |-> Cardinality({t \in Tables : Matches(t, I) = k})]

Check(ab) ==
  LET I == ab[1] \cap ab[2]
      ci == Cardinality(I)
      h == Hist(I)
      RECURSIVE S1(_), S2(_)
      S1(k) == IF k < 0 THEN 0 ELSE k * h[k] + S1(k-1)
      S2(k) == IF k < 0 THEN 0 ELSE (k * N - M * ci) * (k * N - M * ci) * h[k] + S2(k-1)
  IN /\ S1(M) * N = NT * M * ci                               \* unbiased
     /\ S2(M) <= NT * ci * (N - ci) * M                       \* MSE not above plain MinHash
     /\ PrintT(<<"COUNT", ToJson([a |-> ab[1], b |-> ab[2], tables |-> NT, hist |-> h,
                                   mse_num |-> S2(M), mse_bound |-> NT * ci * (N - ci) * M])>>)

ASSUME \A ab \in Patterns : Check(ab)

VARIABLE dummy
Init == dummy = 0
Next == dummy' = dummy
================================================================================
